From Coq Require Import List Arith Lia Bool.
Import ListNotations.

(* Spike: model of verifyAcyclic's trail-stack DFS and its recursive counterpart. *)
Section G.
Variable succ : nat -> list nat.

Definition mem (x : nat) (l : list nat) : bool := existsb (Nat.eqb x) l.

Lemma mem_In x l : mem x l = true <-> In x l.
Proof. unfold mem. rewrite existsb_exists. split.
  - intros [y [Hy He]]. apply Nat.eqb_eq in He. subst; auto.
  - intros H. exists x. split; auto. apply Nat.eqb_refl.
Qed.

Lemma mem_nIn x l : mem x l = false <-> ~ In x l.
Proof. rewrite <- mem_In. destruct (mem x l); split; congruence. Qed.

(* trail is kept reversed: head = current node *)
Definition push1 (trail : list nat) (acc : list (list nat) * nat) (a : nat) :=
  let '(ps, e) := acc in
  if mem a trail then (ps, S e) else ((a :: trail) :: ps, e).

Definition children_step (trail : list nat) (kids : list nat) : list (list nat) * nat :=
  fold_left (push1 trail) kids ([], 0).

Fixpoint machine (fuel : nat) (stk : list (list nat)) (vis : list nat) (errs : nat) : option (list nat * nat) :=
  match fuel with
  | 0 => None
  | S f =>
    match stk with
    | [] => Some (vis, errs)
    | [] :: stk' => machine f stk' vis errs
    | (h :: tl) :: stk' =>
      if mem h vis then machine f stk' vis errs
      else let '(ps, e) := children_step (h :: tl) (succ h) in
           machine f (ps ++ stk') (h :: vis) (errs + e)
    end
  end.

Fixpoint nerrs (tr : list nat) (l : list nat) : nat :=
  match l with
  | [] => 0
  | a :: l' => (if mem a tr then 1 else 0) + nerrs tr l'
  end.

Fixpoint rdfs (fuel : nat) (trail : list nat) (x : nat) (vis : list nat) : option (list nat * nat) :=
  match fuel with
  | 0 => None
  | S f =>
    if mem x vis then Some (vis, 0)
    else
      let tr := x :: trail in
      match
      (fix kids (l : list nat) : option (list nat * nat) :=
         match l with
         | [] => Some (x :: vis, 0)
         | a :: l' =>
           match kids l' with
           | None => None
           | Some (v, e) =>
             if mem a tr then Some (v, e)
             else match rdfs f tr a v with
                  | None => None
                  | Some (v', e') => Some (v', e + e')
                  end
           end
         end) (succ x)
      with None => None | Some (v, e) => Some (v, nerrs tr (succ x) + e) end
  end.

Fixpoint rkids (f : nat) (tr : list nat) (v0 : list nat) (l : list nat) : option (list nat * nat) :=
  match l with
  | [] => Some (v0, 0)
  | a :: l' =>
    match rkids f tr v0 l' with
    | None => None
    | Some (v, e) =>
      if mem a tr then Some (v, e)
      else match rdfs f tr a v with
           | None => None
           | Some (v', e') => Some (v', e + e')
           end
    end
  end.

Lemma rdfs_unfold f trail x vis :
  rdfs (S f) trail x vis =
  if mem x vis then Some (vis, 0) else
  match rkids f (x :: trail) (x :: vis) (succ x) with
  | None => None | Some (v, e) => Some (v, nerrs (x :: trail) (succ x) + e) end.
Proof.
  simpl. destruct (mem x vis); auto.
  match goal with |- match ?A with _ => _ end = match ?B with _ => _ end => assert (A = B) as -> end; auto.
  induction (succ x) as [|a l IH]; simpl; auto.
  rewrite IH. reflexivity.
Qed.

(* entries pushed for a list of kids, top of stack first *)
Fixpoint entries (tr : list nat) (l : list nat) : list (list nat) :=
  match l with
  | [] => []
  | a :: l' => entries tr l' ++ (if mem a tr then [] else [a :: tr])
  end.

Lemma fold_push tr l ps e :
  fold_left (push1 tr) l (ps, e) = (entries tr l ++ ps, e + nerrs tr l).
Proof.
  revert ps e. induction l as [|a l IH]; intros ps e; simpl.
  - f_equal. lia.
  - destruct (mem a tr) eqn:E; rewrite IH; simpl.
    + rewrite app_nil_r. f_equal. lia.
    + rewrite <- app_assoc. simpl. f_equal.
  Qed.

Lemma children_step_eq tr l : children_step tr l = (entries tr l, nerrs tr l).
Proof. unfold children_step. rewrite fold_push. rewrite app_nil_r. reflexivity. Qed.

(* machine with more fuel gives same answer *)
Lemma machine_mono f : forall stk vis errs r,
  machine f stk vis errs = Some r -> forall f', f <= f' -> machine f' stk vis errs = Some r.
Proof.
  induction f as [|f IH]; intros stk vis errs r H f' Hle; [discriminate|].
  destruct f' as [|f']; [lia|]. simpl in *.
  destruct stk as [|[|h tl] stk']; auto.
  - apply IH; auto; lia.
  - destruct (mem h vis); [apply IH; auto; lia|].
    destruct (children_step (h :: tl) (succ h)) as [ps e]. apply IH; auto; lia.
Qed.


Definition P (f : nat) : Prop :=
  forall tr x vis v' e', rdfs f tr x vis = Some (v', e') ->
     forall stk errs, exists k, forall fuel,
       machine (k + fuel) ((x :: tr) :: stk) vis errs = machine fuel stk v' (errs + e').

Definition Q (f : nat) : Prop :=
  forall tr v0 l v' e', rkids f tr v0 l = Some (v', e') ->
     forall stk errs, exists k, forall fuel,
       machine (k + fuel) (entries tr l ++ stk) v0 errs = machine fuel stk v' (errs + e').

Lemma P_Q f : P f -> Q f.
Proof.
  intros HP tr v0 l. induction l as [|a l IHl]; intros v' e' H stk errs.
  - simpl in H. inversion H; subst. exists 0. intros fuel. simpl. f_equal. lia.
  - simpl in H. destruct (rkids f tr v0 l) as [[v e]|] eqn:E; [|discriminate].
    simpl. destruct (mem a tr) eqn:Ea.
    + inversion H; subst. rewrite app_nil_r. apply IHl. reflexivity.
    + destruct (rdfs f tr a v) as [[v2 e2]|] eqn:E2; [|discriminate]. inversion H; subst.
      rewrite <- app_assoc. simpl.
      destruct (IHl _ _ eq_refl ((a :: tr) :: stk) errs) as [k1 Hk1].
      destruct (HP _ _ _ _ _ E2 stk (errs + e)) as [k2 Hk2].
      exists (k1 + k2). intros fuel.
      rewrite <- Nat.add_assoc. rewrite Hk1. rewrite Hk2. f_equal. lia.
Qed.

Lemma Q_P f : Q f -> P (S f).
Proof.
  intros HQ tr x vis v' e' H stk errs. rewrite rdfs_unfold in H.
  destruct (mem x vis) eqn:Ex.
  - inversion H; subst. exists 1. intros fuel. simpl. rewrite Ex. f_equal. lia.
  - destruct (rkids f (x :: tr) (x :: vis) (succ x)) as [[v e]|] eqn:E; [|discriminate].
    inversion H; subst.
    destruct (HQ _ _ _ _ _ E stk (errs + nerrs (x :: tr) (succ x))) as [k Hk].
    exists (S k). intros fuel. simpl. rewrite Ex. rewrite children_step_eq.
    rewrite Hk. f_equal. lia.
Qed.

Theorem sim f : P f.
Proof.
  induction f as [|f IH].
  - intros tr x vis v' e' H. discriminate.
  - apply Q_P. apply P_Q. exact IH.
Qed.


(* ---------- semantic correctness of the recursive DFS ---------- *)
Definition edge (u v : nat) : Prop := In v (succ u).
Inductive path : nat -> nat -> Prop :=
| path1 u v : edge u v -> path u v
| pathS u v w : edge u v -> path v w -> path u w.

Lemma path_trans u v w : path u v -> path v w -> path u w.
Proof. induction 1; intros; [eapply pathS; eauto|eapply pathS; eauto]. Qed.

Definition black (vis tr : list nat) (u : nat) : Prop := In u vis /\ ~ In u tr.

(* invariant: black nodes are closed under succ and lie on no cycle *)
Definition Inv (vis tr : list nat) : Prop :=
  (forall u v, black vis tr u -> edge u v -> black vis tr v) /\
  (forall u, black vis tr u -> ~ path u u).

Lemma closed_path vis tr u w :
  (forall u v, black vis tr u -> edge u v -> black vis tr v) ->
  black vis tr u -> path u w -> black vis tr w.
Proof. intros Hc Hb Hp. induction Hp; eauto. Qed.

Definition PostX (tr : list nat) (x : nat) (vis v' : list nat) : Prop :=
  incl vis v' /\ In x v' /\ (forall u, In u v' -> ~ In u vis -> ~ In u tr) /\ Inv v' tr.

Lemma rkids_ok f :
  (forall tr x vis v', rdfs f tr x vis = Some (v', 0) ->
      incl tr vis -> ~ In x tr -> Inv vis tr -> PostX tr x vis v') ->
  forall tr v0 l v', rkids f tr v0 l = Some (v', 0) -> nerrs tr l = 0 ->
      incl tr v0 -> Inv v0 tr ->
      incl v0 v' /\ (forall a, In a l -> black v' tr a) /\
      (forall u, In u v' -> ~ In u v0 -> ~ In u tr) /\ Inv v' tr.
Proof.
  intros HP tr v0 l. induction l as [|a l IH]; intros v' H Hn Htr HI.
  - simpl in H. inversion H; subst.
    split; [apply incl_refl|]. split; [intros ? []|]. split; [intros; contradiction|exact HI].
  - simpl in H, Hn. destruct (mem a tr) eqn:Ea; [lia|].
    destruct (rkids f tr v0 l) as [[v e]|] eqn:E; [|discriminate].
    destruct (rdfs f tr a v) as [[v2 e2]|] eqn:E2; [|discriminate].
    inversion H; subst. assert (e = 0) by lia. assert (e2 = 0) by lia. subst.
    destruct (IH _ eq_refl) as (I1 & I2 & I3 & I4); auto.
    apply mem_nIn in Ea.
    destruct (HP _ _ _ _ E2) as (P1 & P2 & P3 & P4); auto.
    { eapply incl_tran; eauto. }
    split; [eapply incl_tran; eauto|]. split; [|split; [|exact P4]].
    + intros b [<-|Hb]; [split; auto|].
      destruct (I2 _ Hb) as [Hb1 Hb2]. split; auto.
    + intros u Hu Hnu. destruct (in_dec Nat.eq_dec u v) as [Hv|Hv]; auto.
Qed.

Lemma rdfs_ok f : forall tr x vis v', rdfs f tr x vis = Some (v', 0) ->
      incl tr vis -> ~ In x tr -> Inv vis tr -> PostX tr x vis v'.
Proof.
  induction f as [|f IH]; intros tr x vis v' H Htr Hx HI; [discriminate|].
  rewrite rdfs_unfold in H. destruct (mem x vis) eqn:Ex.
  - inversion H; subst. apply mem_In in Ex.
    split; [apply incl_refl|]. split; [exact Ex|]. split; [intros; contradiction|exact HI].
  - apply mem_nIn in Ex.
    destruct (rkids f (x :: tr) (x :: vis) (succ x)) as [[v e]|] eqn:E; [|discriminate].
    inversion H; subst.
    assert (Hn : nerrs (x :: tr) (succ x) = 0) by lia. assert (e = 0) by lia. subst.
    destruct HI as [HI1 HI2].
    assert (HB : forall u, black (x :: vis) (x :: tr) u <-> black vis tr u).
    { intros u; unfold black; simpl; split.
      - intros [[<-|Hu] Hn']; [exfalso; apply Hn'; auto|]. split; auto.
      - intros [Hu Hn']. split; auto. intros [<-|?]; auto. }
    destruct (rkids_ok f IH _ _ _ _ E) as (K1 & K2 & K3 & K4 & K5); auto.
    { intros u [<-|Hu]; simpl; auto. }
    { split.
      - intros u w Hb He. apply HB. apply HB in Hb. eauto.
      - intros u Hb. apply HB in Hb. auto. }
    assert (Hxv : In x v') by (apply K1; simpl; auto).
    assert (HB2 : forall u, black v' tr u <-> (u = x \/ black v' (x :: tr) u)).
    { intros u; unfold black; simpl; split.
      - intros [Hu Hn']. destruct (Nat.eq_dec u x); auto. right. split; auto. intros [?|?]; auto.
      - intros [->|[Hu Hn']]; split; auto. }
    split; [intros u Hu; apply K1; simpl; auto|]. split; [exact Hxv|]. split; [|split].
    + intros u Hu Hnu Hin. apply (K3 u Hu).
      * intros [<-|?]; auto.
      * simpl; auto.
    + intros u w Hb He. apply HB2. apply HB2 in Hb. destruct Hb as [->|Hb].
      * right. apply K2. exact He.
      * right. eapply K4; eauto.
    + intros u Hb Hp. apply HB2 in Hb. destruct Hb as [->|Hb].
      * inversion Hp; subst.
        -- match goal with Hed : edge x x |- _ => destruct (K2 _ Hed) as [_ Hn']; apply Hn'; simpl; auto end.
        -- match goal with Hed : edge x ?v, Hpa : path ?v x |- _ =>
             pose proof (K2 _ Hed) as Hb;
             pose proof (closed_path _ _ _ _ K4 Hb Hpa) as Hb';
             destruct Hb' as [_ Hn']; apply Hn'; simpl; auto end.
      * eapply K5; eauto.
Qed.

(* soundness: an error means a real cycle *)
Fixpoint is_trail (l : list nat) : Prop :=
  match l with
  | [] => True
  | y :: l' => match l' with [] => True | z :: _ => edge z y /\ is_trail l' end
  end.

Lemma trail_path : forall tr x a, is_trail (x :: tr) -> In a tr -> path a x.
Proof.
  induction tr as [|z tr IH]; intros x a Ht Ha; [destruct Ha|].
  simpl in Ht. destruct Ht as [He Ht]. destruct Ha as [<-|Ha].
  - apply path1; auto.
  - eapply path_trans; [apply IH; eauto|apply path1; auto].
Qed.

Lemma nerrs_cycle tr x l : is_trail (x :: tr) -> (forall a, In a l -> edge x a) ->
  nerrs (x :: tr) l > 0 -> exists u, path u u.
Proof.
  intros Ht. induction l as [|a l IH]; cbn [nerrs]; intros He Hn; [lia|].
  destruct (mem a (x :: tr)) eqn:Ea.
  - apply mem_In in Ea. destruct Ea as [<-|Ea].
    + exists x. apply path1. apply He; simpl; auto.
    + exists a. eapply path_trans; [eapply trail_path; eauto|]. apply path1. apply He; simpl; auto.
  - apply IH; [intros; apply He; simpl; auto|]. simpl in Hn. exact Hn.
Qed.

Lemma rkids_sound f
  (IH : forall tr x vis v' e, rdfs f tr x vis = Some (v', e) -> e > 0 ->
        is_trail (x :: tr) -> exists u, path u u) :
  forall tr x l v0 v e, is_trail (x :: tr) -> (forall a, In a l -> edge x a) ->
    rkids f (x :: tr) v0 l = Some (v, e) -> e > 0 -> exists u, path u u.
Proof.
  intros tr x l. induction l as [|a l IHl]; intros v0 v e Ht Hall E He; cbn [rkids] in E.
  - inversion E; lia.
  - destruct (rkids f (x :: tr) v0 l) as [[v2 e2]|] eqn:E2; [|discriminate].
    destruct (mem a (x :: tr)) eqn:Ea.
    + inversion E; subst. eapply IHl; eauto. intros; apply Hall; simpl; auto.
    + destruct (rdfs f (x :: tr) a v2) as [[v3 e3]|] eqn:E3; [|discriminate].
      inversion E; subst.
      destruct (Nat.eq_dec e2 0).
      * eapply (IH _ _ _ _ _ E3); [lia|]. simpl. split; auto. apply Hall; simpl; auto.
      * eapply IHl; eauto; [intros; apply Hall; simpl; auto|lia].
Qed.

Lemma rdfs_sound f : forall tr x vis v' e, rdfs f tr x vis = Some (v', e) -> e > 0 ->
  is_trail (x :: tr) -> exists u, path u u.
Proof.
  induction f as [|f IH]; intros tr x vis v' e H He Ht; [discriminate|].
  rewrite rdfs_unfold in H. destruct (mem x vis); [inversion H; lia|].
  destruct (rkids f (x :: tr) (x :: vis) (succ x)) as [[v e1]|] eqn:E; [|discriminate].
  inversion H; subst.
  destruct (Nat.eq_dec (nerrs (x :: tr) (succ x)) 0) as [Hz|Hz].
  - eapply (rkids_sound f IH); eauto. lia.
  - eapply nerrs_cycle; eauto. lia.
Qed.


(* ---------- all roots, fuel sufficiency, final iff ---------- *)
Fixpoint vroots (f : nat) (roots : list nat) (vis : list nat) : option (list nat * nat) :=
  match roots with
  | [] => Some (vis, 0)
  | r :: rs =>
    match rdfs f [] r vis with
    | None => None
    | Some (v, e) =>
      match vroots f rs v with
      | None => None
      | Some (v', e') => Some (v', e + e')
      end
    end
  end.

(* the Go code: outer loop over sorted roots, inner loop until the stack is empty *)
Fixpoint mroots (fuel : nat) (roots : list nat) (vis : list nat) (errs : nat) : option (list nat * nat) :=
  match roots with
  | [] => Some (vis, errs)
  | r :: rs =>
    match machine fuel [[r]] vis errs with
    | None => None
    | Some (v, e) => mroots fuel rs v e
    end
  end.

Lemma machine_nil fuel vis errs : machine (S fuel) [] vis errs = Some (vis, errs).
Proof. reflexivity. Qed.

Lemma mroots_sim f : forall roots vis v e errs,
  vroots f roots vis = Some (v, e) ->
  exists fuel, forall fuel', fuel <= fuel' -> mroots fuel' roots vis errs = Some (v, errs + e).
Proof.
  induction roots as [|r rs IH]; intros vis v e errs H; cbn [vroots] in H.
  - inversion H; subst. exists 0. intros. cbn. f_equal. f_equal. lia.
  - destruct (rdfs f [] r vis) as [[v1 e1]|] eqn:E; [|discriminate].
    destruct (vroots f rs v1) as [[v2 e2]|] eqn:E2; [|discriminate]. inversion H; subst.
    destruct (sim f _ _ _ _ _ E [] errs) as [k Hk].
    destruct (IH _ _ _ (errs + e1) E2) as [fuel2 H2].
    exists (k + 1 + fuel2). intros fuel' Hle. cbn [mroots].
    assert (Hm : machine fuel' [[r]] vis errs = Some (v1, errs + e1)).
    { apply (machine_mono (k + 1)); [|lia]. rewrite Hk. reflexivity. }
    rewrite Hm. rewrite H2; [|lia]. f_equal. f_equal. lia.
Qed.

(* --- fuel sufficiency --- *)
Variable U : list nat.
Hypothesis U_closed : forall u v, In u U -> In v (succ u) -> In v U.

Definition unvl (l vis : list nat) : nat := length (filter (fun u => negb (mem u vis)) l).
Definition unv (vis : list nat) : nat := unvl U vis.

Lemma mem_cons u x vis : mem u (x :: vis) = (u =? x) || mem u vis.
Proof. reflexivity. Qed.

Lemma unvl_mono l vis vis' : incl vis vis' -> unvl l vis' <= unvl l vis.
Proof.
  intros Hi. unfold unvl. induction l as [|u l IH]; cbn [filter length]; auto.
  destruct (mem u vis') eqn:E1; destruct (mem u vis) eqn:E2; cbn [negb length]; try lia.
  exfalso. apply mem_In in E2. apply Hi in E2. apply mem_In in E2. congruence.
Qed.

Lemma unvl_visit l x vis : In x l -> mem x vis = false -> unvl l (x :: vis) < unvl l vis.
Proof.
  intros Hx Hm. induction l as [|u l IH]; [destruct Hx|].
  assert (Hle : unvl l (x :: vis) <= unvl l vis) by (apply unvl_mono; intros y Hy; simpl; auto).
  unfold unvl in *. cbn [filter]. rewrite mem_cons.
  destruct (u =? x) eqn:E.
  - apply Nat.eqb_eq in E. subst u. rewrite Hm. cbn [orb negb length]. lia.
  - cbn [orb]. destruct Hx as [->|Hx]; [rewrite Nat.eqb_refl in E; discriminate|].
    specialize (IH Hx). destruct (mem u vis); cbn [negb length]; lia.
Qed.

Lemma unvl_le l vis : unvl l vis <= length l.
Proof. unfold unvl. induction l as [|u l IH]; cbn [filter length]; auto. destruct (negb (mem u vis)); cbn [length]; lia. Qed.

Lemma unv_mono vis vis' : incl vis vis' -> unv vis' <= unv vis.
Proof. apply unvl_mono. Qed.
Lemma unv_visit x vis : In x U -> mem x vis = false -> unv (x :: vis) < unv vis.
Proof. apply unvl_visit. Qed.

Lemma rdfs_incl f : forall tr x vis v e, rdfs f tr x vis = Some (v, e) -> incl vis v.
Proof.
  induction f as [|f IH]; intros tr x vis v e H; [discriminate|].
  rewrite rdfs_unfold in H. destruct (mem x vis); [inversion H; apply incl_refl|].
  destruct (rkids f (x :: tr) (x :: vis) (succ x)) as [[v1 e1]|] eqn:E; [|discriminate].
  inversion H; subst.
  assert (incl (x :: vis) v).
  { clear H. revert v e1 E. generalize (x :: vis) as v0. generalize (succ x) as l.
    induction l as [|a l IHl]; intros v0 v e1 E; cbn [rkids] in E.
    - inversion E; apply incl_refl.
    - destruct (rkids f (x :: tr) v0 l) as [[v2 e2]|] eqn:E2; [|discriminate].
      destruct (mem a (x :: tr)).
      + inversion E; subst. eapply IHl; eauto.
      + destruct (rdfs f (x :: tr) a v2) as [[v3 e3]|] eqn:E3; [|discriminate]. inversion E; subst.
        eapply incl_tran; [eapply IHl; eauto|eapply IH; eauto]. }
  intros y Hy. apply H0. simpl; auto.
Qed.

Lemma rdfs_total : forall f tr x vis, In x U -> unv vis < f -> exists r, rdfs f tr x vis = Some r.
Proof.
  induction f as [|f IH]; intros tr x vis Hx Hf; [lia|].
  rewrite rdfs_unfold. destruct (mem x vis) eqn:Ex; [eauto|].
  assert (Hlt := unv_visit x vis Hx Ex).
  assert (HK : forall l v0, (forall a, In a l -> In a U) -> unv v0 < f ->
             exists r, rkids f (x :: tr) v0 l = Some r /\ incl v0 (fst r)).
  { induction l as [|a l IHl]; intros v0 Hl Hv; cbn [rkids].
    - exists (v0, 0). split; auto. apply incl_refl.
    - destruct (IHl v0) as ([v e] & Hr & Hi); [intros; apply Hl; simpl; auto|auto|].
      rewrite Hr. simpl in Hi. destruct (mem a (x :: tr)).
      + exists (v, e). split; auto.
      + destruct (IH (x :: tr) a v) as [[v3 e3] Hr3]; [apply Hl; simpl; auto| |].
        { pose proof (unv_mono _ _ Hi). lia. }
        rewrite Hr3. exists (v3, e + e3). split; auto. simpl.
        eapply incl_tran; [eauto|eapply rdfs_incl; eauto]. }
  destruct (HK (succ x) (x :: vis)) as ([v e] & Hr & _); [intros; eapply U_closed; eauto|lia|].
  rewrite Hr. eauto.
Qed.

Lemma vroots_total f : forall roots vis, incl roots U -> length U < f -> exists r, vroots f roots vis = Some r.
Proof.
  induction roots as [|r rs IH]; intros vis Hi Hf; cbn [vroots]; [eauto|].
  assert (Hu : unv vis <= length U) by (apply unvl_le).
  destruct (rdfs_total f [] r vis) as [[v e] Hr]; [apply Hi; simpl; auto|lia|].
  rewrite Hr. destruct (IH v) as [[v' e'] Hr']; [intros y Hy; apply Hi; simpl; auto|auto|].
  rewrite Hr'. eauto.
Qed.

(* --- final statement --- *)
Lemma vroots_ok f : forall roots vis v,
  vroots f roots vis = Some (v, 0) -> Inv vis [] ->
  Inv v [] /\ incl vis v /\ incl roots v.
Proof.
  induction roots as [|r rs IH]; intros vis v H HI; cbn [vroots] in H.
  - inversion H; subst. split; auto. split; [apply incl_refl|intros x []].
  - destruct (rdfs f [] r vis) as [[v1 e1]|] eqn:E; [|discriminate].
    destruct (vroots f rs v1) as [[v2 e2]|] eqn:E2; [|discriminate]. inversion H; subst.
    assert (e1 = 0) by lia. assert (e2 = 0) by lia. subst.
    destruct (rdfs_ok f [] r vis v1 E) as (P1 & P2 & P3 & P4); auto.
    { intros x []. }
    destruct (IH _ _ E2 P4) as (Q1 & Q2 & Q3).
    split; auto. split; [eapply incl_tran; eauto|].
    intros x [<-|Hx]; auto.
Qed.

Lemma vroots_sound f : forall roots vis v e,
  vroots f roots vis = Some (v, e) -> e > 0 -> exists u, path u u.
Proof.
  induction roots as [|r rs IH]; intros vis v e H He; cbn [vroots] in H.
  - inversion H; lia.
  - destruct (rdfs f [] r vis) as [[v1 e1]|] eqn:E; [|discriminate].
    destruct (vroots f rs v1) as [[v2 e2]|] eqn:E2; [|discriminate]. inversion H; subst.
    destruct (Nat.eq_dec e1 0).
    + eapply IH; eauto. lia.
    + eapply rdfs_sound; eauto; [lia|simpl; auto].
Qed.

(* every node with a successor is a root (non-keys are leaves) *)
Theorem verify_iff roots :
  incl roots U -> (forall u, succ u <> [] -> In u roots) ->
  exists v e, vroots (S (length U)) roots [] = Some (v, e) /\
              (e = 0 <-> ~ exists u, path u u).
Proof.
  intros Hr Hk. destruct (vroots_total (S (length U)) roots []) as [[v e] H]; auto.
  exists v, e. split; auto. split.
  - intros -> [u Hp].
    destruct (vroots_ok _ _ _ _ H) as (I1 & _ & I3).
    { split; [intros x y [[] _]|intros x [[] _]]. }
    destruct I1 as [_ I1]. apply (I1 u); auto. split; [|intros []].
    apply I3. apply Hk. inversion Hp; subst; intros Hs;
      match goal with Hed : edge u _ |- _ => unfold edge in Hed; rewrite Hs in Hed; destruct Hed end.
  - intros Hn. destruct e; auto. exfalso. apply Hn. eapply vroots_sound; eauto. lia.
Qed.


(* ---------- the same machine recording the content of every cycle it reports ---------- *)
Fixpoint cut (a : nat) (tr : list nat) : list nat :=
  match tr with
  | [] => []
  | h :: tl => if Nat.eqb h a then [h] else h :: cut a tl
  end.

(* curr[i..] followed by a, where the trail is kept reversed *)
Definition cycle_of (a : nat) (tr : list nat) : list nat := rev (cut a tr) ++ [a].

Definition push1L (trail : list nat) (acc : list (list nat) * list (list nat)) (a : nat) :=
  let '(ps, e) := acc in
  if mem a trail then (ps, e ++ [cycle_of a trail]) else ((a :: trail) :: ps, e).

Definition children_stepL (trail : list nat) (kids : list nat) : list (list nat) * list (list nat) :=
  fold_left (push1L trail) kids ([], []).

Fixpoint machineL (fuel : nat) (stk : list (list nat)) (vis : list nat) (errs : list (list nat))
  : option (list nat * list (list nat)) :=
  match fuel with
  | 0 => None
  | S f =>
    match stk with
    | [] => Some (vis, errs)
    | [] :: stk' => machineL f stk' vis errs
    | (h :: tl) :: stk' =>
      if mem h vis then machineL f stk' vis errs
      else let '(ps, e) := children_stepL (h :: tl) (succ h) in
           machineL f (ps ++ stk') (h :: vis) (errs ++ e)
    end
  end.

Fixpoint mrootsL (fuel : nat) (roots : list nat) (vis : list nat) (errs : list (list nat))
  : option (list nat * list (list nat)) :=
  match roots with
  | [] => Some (vis, errs)
  | r :: rs =>
    match machineL fuel [[r]] vis errs with
    | None => None
    | Some (v, e) => mrootsL fuel rs v e
    end
  end.

Definition forget (r : option (list nat * list (list nat))) : option (list nat * nat) :=
  match r with None => None | Some (v, e) => Some (v, length e) end.

Lemma fold_push1L tr l : forall ps e ps0 e0,
  fold_left (push1 tr) l (ps0, e0) = (ps, e) ->
  forall eL0, length eL0 = e0 ->
  exists eL, fold_left (push1L tr) l (ps0, eL0) = (ps, eL) /\ length eL = e.
Proof.
  induction l as [|a l IH]; intros ps e ps0 e0 H eL0 HL; cbn [fold_left] in *.
  - inversion H; subst. eauto.
  - unfold push1 at 2 in H. unfold push1L at 2. destruct (mem a tr).
    + eapply IH; eauto. rewrite app_length. simpl. lia.
    + eapply IH; eauto.
Qed.

Lemma children_stepL_forget tr l :
  let '(ps, e) := children_step tr l in
  exists eL, children_stepL tr l = (ps, eL) /\ length eL = e.
Proof.
  destruct (children_step tr l) as [ps e] eqn:E. unfold children_step in E.
  unfold children_stepL. eapply fold_push1L; eauto.
Qed.

Lemma machineL_forget f : forall stk vis errs,
  forget (machineL f stk vis errs) = machine f stk vis (length errs).
Proof.
  induction f as [|f IH]; intros stk vis errs; cbn [machineL machine forget]; auto.
  destruct stk as [|[|h tl] stk']; auto.
  destruct (mem h vis); auto.
  pose proof (children_stepL_forget (h :: tl) (succ h)) as Hc.
  destruct (children_step (h :: tl) (succ h)) as [ps e].
  destruct Hc as (eL & -> & <-). rewrite IH, app_length. reflexivity.
Qed.

Lemma mrootsL_forget f : forall roots vis errs,
  forget (mrootsL f roots vis errs) = mroots f roots vis (length errs).
Proof.
  induction roots as [|r rs IH]; intros vis errs; cbn [mrootsL mroots forget]; auto.
  pose proof (machineL_forget f [[r]] vis errs) as Hm.
  destruct (machineL f [[r]] vis errs) as [[v e]|]; cbn [forget] in Hm; rewrite <- Hm; auto.
Qed.


Lemma mroots_mono f : forall roots vis errs r,
  mroots f roots vis errs = Some r -> forall f', f <= f' -> mroots f' roots vis errs = Some r.
Proof.
  induction roots as [|r0 rs IH]; intros vis errs r H f' Hle; cbn [mroots] in *; auto.
  destruct (machine f [[r0]] vis errs) as [[v e]|] eqn:E; [|discriminate].
  rewrite (machine_mono _ _ _ _ _ E f' Hle). eapply IH; eauto.
Qed.

(* whatever fuel the run was given: if it completed, its verdict is right *)
Theorem mrootsL_verdict fuel roots v cycles :
  incl roots U -> (forall u, succ u <> [] -> In u roots) ->
  mrootsL fuel roots [] [] = Some (v, cycles) ->
  (cycles = [] <-> ~ exists u, path u u).
Proof.
  intros Hi Hc Hm.
  destruct (verify_iff roots Hi Hc) as (v0 & e0 & Hv & Hiff).
  destruct (mroots_sim _ _ _ _ _ 0 Hv) as [fuel0 H0].
  pose proof (mrootsL_forget fuel roots [] []) as Hf. rewrite Hm in Hf. cbn [forget length] in Hf.
  symmetry in Hf.
  pose proof (mroots_mono _ _ _ _ _ Hf (fuel + fuel0) ltac:(lia)) as H1.
  pose proof (H0 (fuel + fuel0) ltac:(lia)) as H2.
  rewrite H1 in H2. inversion H2; subst. rewrite <- Hiff.
  destruct cycles; cbn; split; intros; try discriminate; auto.
Qed.

(* the loop terminates: some amount of fuel (hence any larger amount) completes the run *)
Theorem mrootsL_terminates roots :
  incl roots U -> (forall u, succ u <> [] -> In u roots) ->
  exists fuel0, forall fuel, fuel0 <= fuel -> exists v cycles, mrootsL fuel roots [] [] = Some (v, cycles).
Proof.
  intros Hi Hc.
  destruct (verify_iff roots Hi Hc) as (v0 & e0 & Hv & _).
  destruct (mroots_sim _ _ _ _ _ 0 Hv) as [fuel0 H0].
  exists fuel0. intros fuel Hle. pose proof (H0 fuel Hle) as H1.
  pose proof (mrootsL_forget fuel roots [] []) as Hf. cbn [length] in Hf. rewrite H1 in Hf.
  destruct (mrootsL fuel roots [] []) as [[v c]|]; [eauto|discriminate].
Qed.


(* ---------------- an explicit iteration bound: linear in the graph, independent of the number of paths ------- *)
Section Bound.
Variable ks : list nat.                       (* the keys: every node with successors *)
Hypothesis ks_nodup : NoDup ks.
Hypothesis ks_cover : forall u, succ u <> [] -> In u ks.

(* successors of the keys that are not visited yet *)
Fixpoint pot (l : list nat) (vis : list nat) : nat :=
  match l with
  | [] => 0
  | u :: r => (if mem u vis then 0 else length (succ u)) + pot r vis
  end.

Lemma pot_mono l x vis : pot l (x :: vis) <= pot l vis.
Proof.
  induction l as [|u r IH]; cbn [pot]; auto. rewrite mem_cons.
  destruct (u =? x); cbn [orb]; [lia|]. destruct (mem u vis); lia.
Qed.

Lemma pot_visit l x vis : NoDup l -> In x l -> mem x vis = false -> pot l (x :: vis) + length (succ x) <= pot l vis.
Proof.
  induction l as [|u r IH]; intros Hnd Hin Hm; [destruct Hin|]. inversion Hnd; subst. cbn [pot]. rewrite mem_cons.
  destruct Hin as [->|Hin].
  - rewrite Nat.eqb_refl. cbn [orb]. rewrite Hm. pose proof (pot_mono r x vis). lia.
  - destruct (u =? x) eqn:E; [apply Nat.eqb_eq in E; subst; contradiction|]. cbn [orb].
    specialize (IH H2 Hin Hm). destruct (mem u vis); lia.
Qed.

Lemma entries_length tr l : length (entries tr l) <= length l.
Proof.
  induction l as [|a r IH]; cbn [entries length]; auto. rewrite app_length.
  destruct (mem a tr); cbn [length]; lia.
Qed.

(* with fuel above |stack| + potential the loop completes *)
Theorem machine_bound : forall fuel stk vis errs,
  length stk + pot ks vis < fuel -> exists r, machine fuel stk vis errs = Some r.
Proof.
  induction fuel as [|f IH]; intros stk vis errs Hlt; [lia|]. cbn [machine].
  destruct stk as [|[|h tl] stk']; [eauto| |].
  - apply IH. cbn [length] in Hlt. lia.
  - destruct (mem h vis) eqn:Em.
    + apply IH. cbn [length] in Hlt. lia.
    + rewrite children_step_eq. apply IH. rewrite app_length.
      pose proof (entries_length (h :: tl) (succ h)) as He. cbn [length] in Hlt.
      destruct (succ h) as [|a0 l0] eqn:Es.
      * cbn [entries length] in *. pose proof (pot_mono ks h vis). lia.
      * assert (Hin : In h ks) by (apply ks_cover; rewrite Es; discriminate).
        pose proof (pot_visit ks h vis ks_nodup Hin Em) as Hp. rewrite Es in Hp. lia.
Qed.

Lemma machine_vis_incl : forall fuel stk vis errs v e, machine fuel stk vis errs = Some (v, e) -> incl vis v.
Proof.
  induction fuel as [|f IH]; intros stk vis errs v e H; [discriminate|]. cbn [machine] in H.
  destruct stk as [|[|h tl] stk'].
  - inversion H; subst. apply incl_refl.
  - eapply IH; eauto.
  - destruct (mem h vis); [eapply IH; eauto|].
    destruct (children_step (h :: tl) (succ h)) as [ps e1]. apply IH in H. intros x Hx. apply H. right. exact Hx.
Qed.

Lemma pot_incl l vis vis' : incl vis vis' -> pot l vis' <= pot l vis.
Proof.
  intros Hi. induction l as [|u r IH]; cbn [pot]; auto.
  destruct (mem u vis) eqn:E.
  - apply mem_In in E. apply Hi in E. apply mem_In in E. rewrite E. lia.
  - destruct (mem u vis'); lia.
Qed.

(* the outer loop over all roots completes with fuel 2 + sum of the successor counts, whatever the roots *)
Theorem mroots_bound : forall roots vis errs fuel,
  1 + pot ks [] < fuel -> exists r, mroots fuel roots vis errs = Some r.
Proof.
  induction roots as [|r rs IH]; intros vis errs fuel Hf; cbn [mroots]; [eauto|].
  destruct (machine_bound fuel [[r]] vis errs) as [[v e] Hm].
  { cbn [length]. pose proof (pot_incl ks [] vis (incl_nil_l vis)). lia. }
  rewrite Hm. apply IH. exact Hf.
Qed.

Theorem mrootsL_bound roots fuel :
  1 + pot ks [] < fuel -> exists v cycles, mrootsL fuel roots [] [] = Some (v, cycles).
Proof.
  intros Hf. destruct (mroots_bound roots [] 0 fuel Hf) as [[v e] Hm].
  pose proof (mrootsL_forget fuel roots [] []) as Hfg. cbn [length] in Hfg. rewrite Hm in Hfg.
  destruct (mrootsL fuel roots [] []) as [[v' c]|]; [eauto|discriminate].
Qed.
End Bound.

End G.
Print Assumptions rdfs_ok.
Print Assumptions rdfs_sound.
Print Assumptions sim.
Print Assumptions verify_iff.
Print Assumptions mroots_sim.

