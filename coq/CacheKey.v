From Coq Require Import List Arith Bool.
Import ListNotations.

(* parse.go: objectCache.  Results of processing a package-level object are cached under (package path, name).
   The cache is transparent -- a lookup returns what processing that very object yields -- because Go has one
   package-level object per name per package, and (since fix a4530b2) only package-level objects are looked up.
   Before the fix a parameter or local variable was looked up under its own (package, name) too and could be taken for
   the package-level object it shadows; keying by package *name* instead of path (seeded changes C02/C06/C11-r7m2)
   breaks the uniqueness premise in the same way. *)

Record obj := mkObj { o_pkg : nat; o_name : nat; o_pkg_level : bool; o_id : nat }.

Definition key (o : obj) : nat * nat := (o_pkg o, o_name o).
Definition key_eqb (a b : nat * nat) : bool := Nat.eqb (fst a) (fst b) && Nat.eqb (snd a) (snd b).

Lemma key_eqb_eq a b : key_eqb a b = true <-> a = b.
Proof.
  destruct a as [a1 a2], b as [b1 b2]. unfold key_eqb. cbn. rewrite andb_true_iff, !Nat.eqb_eq.
  split; [intros [-> ->]; reflexivity|intros H; injection H; auto].
Qed.

Section C.
Variable analyse : obj -> nat.            (* what processing the object yields (provider, set, ... or its errors) *)

Definition cache := list ((nat * nat) * nat).

Fixpoint find (k : nat * nat) (c : cache) : option nat :=
  match c with [] => None | (k', v) :: r => if key_eqb k' k then Some v else find k r end.

(* None: "is not a provider or a provider set" *)
Definition get (c : cache) (o : obj) : option nat * cache :=
  if o_pkg_level o then
    match find (key o) c with
    | Some v => (Some v, c)
    | None => (Some (analyse o), (key o, analyse o) :: c)
    end
  else (None, c).

(* the code before a4530b2: every object is looked up by name *)
Definition get_unrepaired (c : cache) (o : obj) : option nat * cache :=
  match find (key o) c with
  | Some v => (Some v, c)
  | None => if o_pkg_level o then (Some (analyse o), (key o, analyse o) :: c) else (None, c)
  end.

Definition Inv (c : cache) : Prop :=
  forall k v, find k c = Some v -> exists o, o_pkg_level o = true /\ key o = k /\ analyse o = v.

Hypothesis one_object_per_name :
  forall o o', o_pkg_level o = true -> o_pkg_level o' = true -> key o = key o' -> o = o'.

Theorem get_transparent c o : Inv c ->
  (o_pkg_level o = true -> fst (get c o) = Some (analyse o)) /\
  (o_pkg_level o = false -> fst (get c o) = None) /\
  Inv (snd (get c o)).
Proof.
  intros Hi. unfold get. destruct (o_pkg_level o) eqn:El.
  - destruct (find (key o) c) as [v|] eqn:Ef; cbn [fst snd].
    + destruct (Hi _ _ Ef) as (o' & Hl & Hk & Hv). assert (o' = o) by (apply one_object_per_name; auto). subst o'.
      repeat split; auto; congruence.
    + repeat split; auto; try discriminate. intros k v. cbn [find].
      destruct (key_eqb (key o) k) eqn:Ek; [|apply Hi].
      apply key_eqb_eq in Ek. intros H. injection H as <-. exists o. auto.
  - cbn [fst snd]. repeat split; auto; discriminate.
Qed.

(* any sequence of lookups: every answer is the object's own *)
Fixpoint gets (c : cache) (os : list obj) : list (option nat) :=
  match os with [] => [] | o :: r => fst (get c o) :: gets (snd (get c o)) r end.

Theorem gets_transparent os : forall c, Inv c ->
  gets c os = map (fun o => if o_pkg_level o then Some (analyse o) else None) os.
Proof.
  induction os as [|o r IH]; intros c Hi; cbn; [reflexivity|].
  destruct (get_transparent c o Hi) as (H1 & H2 & H3). rewrite IH by exact H3.
  destruct (o_pkg_level o); [rewrite H1|rewrite H2]; auto.
Qed.
End C.

(* the unrepaired lookup is not transparent: a parameter named like a function is taken for the function *)
Example unrepaired_takes_parameter_for_function :
  let f := mkObj 1 7 true 100 in       (* func provideA *)
  let p := mkObj 1 7 false 200 in      (* a parameter named provideA *)
  let analyse := fun o => o_id o in
  fst (get_unrepaired analyse (snd (get_unrepaired analyse [] f)) p) = Some 100 /\
  fst (get analyse (snd (get analyse [] f)) p) = None.
Proof. split; reflexivity. Qed.
