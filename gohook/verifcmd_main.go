// Copyright 2018 The Wire Authors
//
// Licensed under the Apache License, Version 2.0 (the "License");
// you may not use this file except in compliance with the License.
// You may obtain a copy of the License at
//
//     https://www.apache.org/licenses/LICENSE-2.0
//
// Unless required by applicable law or agreed to in writing, software
// distributed under the License is distributed on an "AS IS" BASIS,
// WITHOUT WARRANTIES OR CONDITIONS OF ANY KIND, either express or implied.
// See the License for the specific language governing permissions and
// limitations under the License.

//go:build verif
// +build verif

// Verifcmd is a JSON-lines front end for the verification hooks in
// internal/wire.  It reads one request per line on stdin and writes one
// response per line on stdout.
package main

import (
	"bufio"
	"encoding/json"
	"fmt"
	"go/token"
	"go/types"
	"os"
	"sort"

	"github.com/google/wire/internal/wire"
)

type request struct {
	Op    string         `json:"op"`
	Set   *wire.VerifSet `json:"set"`
	Given []int          `json:"given"`
	Out   int            `json:"out"`

	Kinds     []string `json:"kinds"`
	Decls     string   `json:"decls"`
	Type      string   `json:"type"`
	Expr      string   `json:"expr"`
	Name      string   `json:"name"`
	Collide   []string `json:"collide"`
	Pkg       string   `json:"pkg"`
	Pointer   bool     `json:"pointer"`
	Default   string   `json:"default"`
	Transform string   `json:"transform"`
	Names     []string `json:"names"`
	Src       string   `json:"src"`
}

func main() {
	in := bufio.NewReaderSize(os.Stdin, 1<<20)
	out := bufio.NewWriter(os.Stdout)
	defer out.Flush()
	dec := json.NewDecoder(in)
	enc := json.NewEncoder(out)
	for {
		var req request
		if err := dec.Decode(&req); err != nil {
			return
		}
		enc.Encode(handle(&req))
		out.Flush()
	}
}

func handle(req *request) (resp interface{}) {
	defer func() {
		if r := recover(); r != nil {
			resp = map[string]interface{}{"panic": fmt.Sprint(r)}
		}
	}()
	switch req.Op {
	case "synth":
		return wire.VerifSynthetic(req.Set, req.Given, req.Out)
	case "funcoutput":
		ok, outKind, cleanup, hasErr, msg := wire.VerifFuncOutput(req.Kinds)
		return map[string]interface{}{"ok": ok, "out": outKind, "cleanup": cleanup, "err": hasErr, "msg": msg}
	case "zerovalue":
		s, ok := wire.VerifZeroValue(req.Decls, req.Type)
		return map[string]interface{}{"ok": ok, "s": s}
	case "disambiguate":
		return map[string]interface{}{"s": wire.VerifDisambiguate(req.Name, req.Collide)}
	case "export":
		return map[string]interface{}{"s": wire.VerifExport(req.Name)}
	case "unexport":
		return map[string]interface{}{"s": wire.VerifUnexport(req.Name)}
	case "typevarname":
		return map[string]interface{}{"s": wire.VerifTypeVariableName(req.Pkg, req.Name, req.Pointer, req.Default, req.Transform, req.Collide)}
	case "iswireimport":
		return map[string]interface{}{"b": wire.VerifIsWireImport(req.Name)}
	case "pathprobe":
		u, imp, w := wire.VerifPathProbe(req.Name, req.Pkg)
		return map[string]interface{}{"unvendored": u, "importable": imp, "iswire": w}
	case "accessprobe":
		msg, ok := wire.VerifAccessProbe(req.Pkg, req.Decls, req.Src, req.Expr, req.Name)
		return map[string]interface{}{"ok": ok, "msg": msg}
	case "valuecheck":
		ok, msg := wire.VerifValueCheck(req.Decls, req.Expr)
		return map[string]interface{}{"ok": ok, "msg": msg}
	case "renameprobe":
		occs, scope, printed, msg := wire.VerifRenameProbe(req.Src, req.Name, req.Names)
		return map[string]interface{}{"occs": occs, "scope": scope, "printed": printed, "msg": msg}
	case "copyprobe":
		return map[string]interface{}{"rows": wire.VerifCopyProbe(), "nodes": wire.VerifASTNodeTypes()}
	case "keywords":
		res := map[string]bool{}
		for _, n := range req.Names {
			res[n] = token.Lookup(n).IsKeyword()
		}
		return res
	case "universe":
		names := types.Universe.Names()
		sort.Strings(names)
		return map[string]interface{}{"names": names}
	}
	return map[string]interface{}{"error": "unknown op " + req.Op}
}
