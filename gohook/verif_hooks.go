// Copyright 2018 The Wire Authors
//
// Licensed under the Apache License, Version 2.0 (the "License");
// you may not use this file except in compliance with the License.
// You may obtain a copy of the License at
//
//     https://www.apache.org/licenses/LICENSE-2.0
//
// Unless required by applicable law or agreed to in writing, software
// distributed under the License is distributed on an "AS IS" BASIS,
// WITHOUT WARRANTIES OR CONDITIONS OF ANY KIND, either express or implied.
// See the License for the specific language governing permissions and
// limitations under the License.

//go:build verif
// +build verif

package wire

// Verification hooks: exported wrappers around unexported analysis pieces.
// This file is only compiled with -tags verif and adds no behaviour to
// ordinary builds.

import (
	"bytes"
	"fmt"
	"go/ast"
	"go/importer"
	"go/parser"
	"go/printer"
	"go/token"
	"go/types"
	"reflect"
	"sort"

	"golang.org/x/tools/go/ast/astutil"
	"golang.org/x/tools/go/packages"
	"golang.org/x/tools/go/types/typeutil"
)

// VerifProvider, VerifValue, VerifField, VerifBinding and VerifSet describe a
// synthetic provider-set tree over numbered types.  Type 2k is the named type
// Tk, type 2k+1 is *Tk.
type VerifProvider struct {
	ID      int      `json:"id"`
	Name    string   `json:"name"`
	Args    []int    `json:"args"`
	Fields  []string `json:"fields"`
	Varargs bool     `json:"varargs"`
	Struct  bool     `json:"struct"`
	Outs    []int    `json:"outs"`
	Cleanup bool     `json:"cleanup"`
	Err     bool     `json:"err"`
}

type VerifValue struct {
	ID  int `json:"id"`
	Out int `json:"out"`
}

type VerifField struct {
	ID     int    `json:"id"`
	Parent int    `json:"parent"`
	Name   string `json:"name"`
	Outs   []int  `json:"outs"`
}

type VerifBinding struct {
	ID    int `json:"id"`
	Iface int `json:"iface"`
	Conc  int `json:"conc"`
}

type VerifSet struct {
	ID        int             `json:"id"`
	Var       string          `json:"var"`
	Imports   []*VerifSet     `json:"imports"`
	Providers []VerifProvider `json:"providers"`
	Values    []VerifValue    `json:"values"`
	Fields    []VerifField    `json:"fields"`
	Bindings  []VerifBinding  `json:"bindings"`
}

// VerifCall is the projection of a planned call.
type VerifCall struct {
	Kind     int      `json:"kind"`
	Out      int      `json:"out"`
	Name     string   `json:"name"`
	Args     []int    `json:"args"`
	Varargs  bool     `json:"varargs"`
	Fields   []string `json:"fields"`
	Ins      []int    `json:"ins"`
	Cleanup  bool     `json:"cleanup"`
	Err      bool     `json:"err"`
	PtrField bool     `json:"ptrfield"`
}

// VerifSynthResult is what the real analysis said about a synthetic tree.
type VerifSynthResult struct {
	SetErrs   []string    `json:"set_errs"`
	SetOK     bool        `json:"set_ok"`
	PM        [][]int     `json:"pm"`  // key, concrete, kind(0 arg,1 provider,2 value,3 field), item id
	Src       [][]int     `json:"src"` // key, kind(0 arg,1 provider,2 value,3 field,4 binding,5 import), id
	Roots     []int       `json:"roots"`
	SolveErrs []string    `json:"solve_errs"`
	Calls     []VerifCall `json:"calls"`
	Solved    bool        `json:"solved"`
}

type verifSynth struct {
	fset   *token.FileSet
	pkg    *types.Package
	hasher typeutil.Hasher
	named  map[int]*types.Named
	tids   *typeutil.Map
	provs  map[int]*Provider
	vals   map[int]*Value
	flds   map[int]*Field
	binds  map[int]*IfaceBinding
	sets   map[int]*ProviderSet
	seterr map[int][]error
	pid    map[*Provider]int
	vid    map[*Value]int
	fid    map[*Field]int
	bid    map[*IfaceBinding]int
	sid    map[*ProviderSet]int
}

func (vs *verifSynth) typ(id int) types.Type {
	k := id / 2
	n := vs.named[k]
	if n == nil {
		n = types.NewNamed(types.NewTypeName(token.NoPos, vs.pkg, fmt.Sprintf("T%d", k), nil), types.NewStruct(nil, nil), nil)
		vs.named[k] = n
		vs.tids.Set(n, 2*k)
		vs.tids.Set(types.NewPointer(n), 2*k+1)
	}
	if id%2 == 0 {
		return n
	}
	return types.NewPointer(n)
}

func (vs *verifSynth) tid(t types.Type) int {
	if v := vs.tids.At(t); v != nil {
		return v.(int)
	}
	return -1
}

// build mirrors the tail of processNewSet: nested sets first (their errors are
// collected and returned), then buildProviderMap and verifyAcyclic.
func (vs *verifSynth) build(s *VerifSet, args *InjectorArgs) (*ProviderSet, []error) {
	if args == nil {
		if ps, ok := vs.sets[s.ID]; ok {
			return ps, append([]error(nil), vs.seterr[s.ID]...)
		}
	}
	pset := &ProviderSet{InjectorArgs: args, PkgPath: "s", VarName: s.Var}
	ec := new(errorCollector)
	for _, imp := range s.Imports {
		item, errs := vs.build(imp, nil)
		if len(errs) > 0 {
			ec.add(errs...)
			continue
		}
		pset.Imports = append(pset.Imports, item)
	}
	for _, p := range s.Providers {
		pp := vs.provs[p.ID]
		if pp == nil {
			pp = &Provider{Pkg: vs.pkg, Name: p.Name, Varargs: p.Varargs, IsStruct: p.Struct, HasCleanup: p.Cleanup, HasErr: p.Err}
			for i, a := range p.Args {
				in := ProviderInput{Type: vs.typ(a)}
				if i < len(p.Fields) {
					in.FieldName = p.Fields[i]
				}
				pp.Args = append(pp.Args, in)
			}
			for _, o := range p.Outs {
				pp.Out = append(pp.Out, vs.typ(o))
			}
			vs.provs[p.ID] = pp
			vs.pid[pp] = p.ID
		}
		pset.Providers = append(pset.Providers, pp)
	}
	for _, v := range s.Values {
		vv := vs.vals[v.ID]
		if vv == nil {
			vv = &Value{Out: vs.typ(v.Out)}
			vs.vals[v.ID] = vv
			vs.vid[vv] = v.ID
		}
		pset.Values = append(pset.Values, vv)
	}
	for _, f := range s.Fields {
		ff := vs.flds[f.ID]
		if ff == nil {
			ff = &Field{Parent: vs.typ(f.Parent), Name: f.Name, Pkg: vs.pkg}
			for _, o := range f.Outs {
				ff.Out = append(ff.Out, vs.typ(o))
			}
			vs.flds[f.ID] = ff
			vs.fid[ff] = f.ID
		}
		pset.Fields = append(pset.Fields, ff)
	}
	for _, b := range s.Bindings {
		bb := vs.binds[b.ID]
		if bb == nil {
			bb = &IfaceBinding{Iface: vs.typ(b.Iface), Provided: vs.typ(b.Conc)}
			vs.binds[b.ID] = bb
			vs.bid[bb] = b.ID
		}
		pset.Bindings = append(pset.Bindings, bb)
	}
	var result *ProviderSet
	var errs []error
	if len(ec.errors) > 0 {
		errs = ec.errors
	} else {
		pset.providerMap, pset.srcMap, errs = buildProviderMap(vs.fset, vs.hasher, pset)
		if len(errs) == 0 {
			errs = verifyAcyclic(pset.providerMap, vs.hasher)
		}
		if len(errs) == 0 {
			result = pset
		}
	}
	if args == nil {
		vs.sets[s.ID] = result
		vs.seterr[s.ID] = append([]error(nil), errs...)
		if result != nil {
			vs.sid[result] = s.ID
		}
	}
	return result, errs
}

// VerifSynthetic runs buildProviderMap, verifyAcyclic and solve on a synthetic
// provider-set tree.
func VerifSynthetic(root *VerifSet, given []int, out int) *VerifSynthResult {
	vs := &verifSynth{
		fset:   token.NewFileSet(),
		pkg:    types.NewPackage("s", "s"),
		hasher: typeutil.MakeHasher(),
		named:  make(map[int]*types.Named),
		tids:   new(typeutil.Map),
		provs:  make(map[int]*Provider),
		vals:   make(map[int]*Value),
		flds:   make(map[int]*Field),
		binds:  make(map[int]*IfaceBinding),
		sets:   make(map[int]*ProviderSet),
		seterr: make(map[int][]error),
		pid:    make(map[*Provider]int),
		vid:    make(map[*Value]int),
		fid:    make(map[*Field]int),
		bid:    make(map[*IfaceBinding]int),
		sid:    make(map[*ProviderSet]int),
	}
	var vars []*types.Var
	for i, g := range given {
		vars = append(vars, types.NewParam(token.NoPos, vs.pkg, fmt.Sprintf("a%d", i), vs.typ(g)))
	}
	tuple := types.NewTuple(vars...)
	res := &VerifSynthResult{}
	set, errs := vs.build(root, &InjectorArgs{Name: "inj", Tuple: tuple})
	for _, e := range errs {
		res.SetErrs = append(res.SetErrs, e.Error())
	}
	if set == nil {
		return res
	}
	res.SetOK = true
	set.providerMap.Iterate(func(k types.Type, v interface{}) {
		pt := v.(*ProvidedType)
		row := []int{vs.tid(k), vs.tid(pt.t), -1, -1}
		switch {
		case pt.IsArg():
			row[2], row[3] = 0, pt.Arg().Index
		case pt.IsProvider():
			row[2], row[3] = 1, vs.pid[pt.Provider()]
		case pt.IsValue():
			row[2], row[3] = 2, vs.vid[pt.Value()]
		case pt.IsField():
			row[2], row[3] = 3, vs.fid[pt.Field()]
		}
		res.PM = append(res.PM, row)
	})
	sort.Slice(res.PM, func(i, j int) bool { return res.PM[i][0] < res.PM[j][0] })
	set.srcMap.Iterate(func(k types.Type, v interface{}) {
		src := v.(*providerSetSrc)
		row := []int{vs.tid(k), -1, -1}
		switch {
		case src.InjectorArg != nil:
			row[1], row[2] = 0, src.InjectorArg.Index
		case src.Provider != nil:
			row[1], row[2] = 1, vs.pid[src.Provider]
		case src.Value != nil:
			row[1], row[2] = 2, vs.vid[src.Value]
		case src.Field != nil:
			row[1], row[2] = 3, vs.fid[src.Field]
		case src.Binding != nil:
			row[1], row[2] = 4, vs.bid[src.Binding]
		case src.Import != nil:
			row[1], row[2] = 5, vs.sid[src.Import]
		}
		res.Src = append(res.Src, row)
	})
	sort.Slice(res.Src, func(i, j int) bool { return res.Src[i][0] < res.Src[j][0] })
	calls, serrs := solve(vs.fset, vs.typ(out), tuple, set)
	for _, e := range serrs {
		res.SolveErrs = append(res.SolveErrs, e.Error())
	}
	if len(serrs) == 0 {
		res.Solved = true
	}
	for _, c := range calls {
		vc := VerifCall{Kind: int(c.kind), Out: vs.tid(c.out), Name: c.name, Args: append([]int{}, c.args...), Varargs: c.varargs,
			Fields: append([]string{}, c.fieldNames...), Cleanup: c.hasCleanup, Err: c.hasErr, PtrField: c.ptrToField, Ins: []int{}}
		for _, in := range c.ins {
			vc.Ins = append(vc.Ins, vs.tid(in))
		}
		res.Calls = append(res.Calls, vc)
	}
	return res
}

// VerifFuncOutput classifies a result list given by kind names.
func VerifFuncOutput(kinds []string) (ok bool, outKind string, cleanup, hasErr bool, msg string) {
	pkg := types.NewPackage("s", "s")
	mk := func(k string) types.Type {
		switch k {
		case "val":
			return types.NewNamed(types.NewTypeName(token.NoPos, pkg, "T", nil), types.NewStruct(nil, nil), nil)
		case "error":
			return types.Universe.Lookup("error").Type()
		case "cleanup":
			return types.NewSignature(nil, nil, nil, false)
		case "namedfunc":
			return types.NewNamed(types.NewTypeName(token.NoPos, pkg, "F", nil), types.NewSignature(nil, nil, nil, false), nil)
		case "otherfunc":
			return types.NewSignature(nil, types.NewTuple(types.NewParam(token.NoPos, pkg, "", types.Typ[types.Int])), nil, false)
		case "namederr":
			emb := []types.Type{types.Universe.Lookup("error").Type()}
			it := types.NewInterfaceType(nil, emb)
			it.Complete()
			return types.NewNamed(types.NewTypeName(token.NoPos, pkg, "E", nil), it, nil)
		case "funcerr":
			return types.NewSignature(nil, nil, types.NewTuple(types.NewParam(token.NoPos, pkg, "", types.Universe.Lookup("error").Type())), false)
		}
		return types.Typ[types.Int]
	}
	var vars []*types.Var
	for _, k := range kinds {
		vars = append(vars, types.NewParam(token.NoPos, pkg, "", mk(k)))
	}
	sig := types.NewSignature(nil, nil, types.NewTuple(vars...), false)
	o, err := funcOutput(sig)
	if err != nil {
		return false, "", false, false, err.Error()
	}
	outKind = "?"
	if len(kinds) > 0 && types.Identical(o.out, vars[0].Type()) {
		outKind = kinds[0]
	}
	return true, outKind, o.cleanup, o.err, ""
}

// VerifZeroValue type-checks "package p; <decls>; var X <typ>" and returns
// zeroValue of X's type; a panic is reported as ok=false.
func VerifZeroValue(decls, typ string) (s string, ok bool) {
	defer func() {
		if r := recover(); r != nil {
			s, ok = fmt.Sprint(r), false
		}
	}()
	fset := token.NewFileSet()
	f, err := parser.ParseFile(fset, "p.go", "package p\nimport \"unsafe\"\nvar _ unsafe.Pointer\n"+decls+"\nvar X "+typ+"\n", 0)
	if err != nil {
		return "parse: " + err.Error(), false
	}
	conf := types.Config{Importer: importer.Default()}
	pkg, err := conf.Check("p", fset, []*ast.File{f}, nil)
	if err != nil {
		return "check: " + err.Error(), false
	}
	t := pkg.Scope().Lookup("X").Type()
	return zeroValue(t, func(p *types.Package) string {
		if p == pkg {
			return ""
		}
		return p.Name()
	}), true
}

// VerifDisambiguate exposes disambiguate with a finite collision set.
func VerifDisambiguate(name string, collide []string) string {
	return disambiguate(name, func(n string) bool {
		for _, c := range collide {
			if c == n {
				return true
			}
		}
		return false
	})
}

// VerifExport and VerifUnexport expose the name helpers.
func VerifExport(name string) string   { return export(name) }
func VerifUnexport(name string) string { return unexport(name) }

// VerifTypeVariableName exposes typeVariableName for a basic type name
// (pkgName == "" and typeName a predeclared type), a named type, or no name.
func VerifTypeVariableName(pkgName, typeName string, pointer bool, defaultName, transform string, collide []string) string {
	var t types.Type
	switch {
	case typeName == "":
		t = types.NewSlice(types.Typ[types.Int])
	case pkgName == "":
		if obj := types.Universe.Lookup(typeName); obj != nil {
			t = obj.Type()
		} else {
			t = types.NewNamed(types.NewTypeName(token.NoPos, nil, typeName, nil), types.NewStruct(nil, nil), nil)
		}
	default:
		pkg := types.NewPackage("example.com/"+pkgName, pkgName)
		t = types.NewNamed(types.NewTypeName(token.NoPos, pkg, typeName, nil), types.NewStruct(nil, nil), nil)
	}
	if pointer {
		t = types.NewPointer(t)
	}
	var tr func(string) string
	switch transform {
	case "unexport":
		tr = unexport
	case "export":
		tr = export
	case "value":
		tr = func(name string) string { return "_wire" + export(name) + "Value" }
	default:
		tr = func(s string) string { return s }
	}
	return typeVariableName(t, defaultName, tr, func(n string) bool {
		for _, c := range collide {
			if c == n {
				return true
			}
		}
		return false
	})
}

// VerifIsWireImport exposes isWireImport.
func VerifIsWireImport(path string) bool { return isWireImport(path) }

// VerifPathProbe runs the path logic of the generator on one import path:
// the key qualifyImport files the path under (its vendor prefix stripped),
// importableFrom(path, from) and isWireImport(path).
func VerifPathProbe(path, from string) (unvendored string, importable, isWire bool) {
	g := &gen{
		pkg:     &packages.Package{PkgPath: "\x00", Types: types.NewPackage("\x00", "p")},
		imports: make(map[string]importInfo),
	}
	g.qualifyImport("n", path)
	for k := range g.imports {
		unvendored = k
	}
	return unvendored, importableFrom(path, from), isWireImport(path)
}

// VerifAccessProbe type-checks a one-file package with import path libPath
// (decls, then the expression: as the initialiser of a package-level variable,
// or, if locals is not empty, inside a function after those statements) and
// runs accessibleFrom on the expression for the package wantPkg.
func VerifAccessProbe(libPath, decls, locals, expr, wantPkg string) (msg string, ok bool) {
	defer func() {
		if r := recover(); r != nil {
			msg, ok = "PANIC: "+fmt.Sprint(r), false
		}
	}()
	fset := token.NewFileSet()
	src := "package lib\n" + decls + "\n"
	if locals == "" {
		src += "var _ = " + expr + "\n"
	} else {
		src += "func _() {\n" + locals + "\n_ = " + expr + "\n}\n"
	}
	f, err := parser.ParseFile(fset, "lib.go", src, 0)
	if err != nil {
		return "parse: " + err.Error(), false
	}
	info := &types.Info{
		Types:  make(map[ast.Expr]types.TypeAndValue),
		Defs:   make(map[*ast.Ident]types.Object),
		Uses:   make(map[*ast.Ident]types.Object),
		Scopes: make(map[ast.Node]*types.Scope),
	}
	conf := types.Config{Importer: importer.Default()}
	if _, err := conf.Check(libPath, fset, []*ast.File{f}, info); err != nil {
		return "check: " + err.Error(), false
	}
	var e ast.Expr
	switch last := f.Decls[len(f.Decls)-1].(type) {
	case *ast.GenDecl:
		e = last.Specs[0].(*ast.ValueSpec).Values[0]
	case *ast.FuncDecl:
		e = last.Body.List[len(last.Body.List)-1].(*ast.AssignStmt).Rhs[0]
	}
	if err := accessibleFrom(info, e, wantPkg); err != nil {
		return err.Error(), true
	}
	return "", true
}

// VerifValueCheck type-checks "package p; <decls>; var _ = Value(<expr>)"
// and runs processValue on the call.
func VerifValueCheck(decls, expr string) (accepted bool, msg string) {
	defer func() {
		if r := recover(); r != nil {
			accepted, msg = false, "PANIC: "+fmt.Sprint(r)
		}
	}()
	fset := token.NewFileSet()
	src := "package p\nfunc Value(interface{}) int { return 0 }\n" + decls + "\nvar _ = Value(" + expr + ")\n"
	f, err := parser.ParseFile(fset, "p.go", src, 0)
	if err != nil {
		return false, "parse: " + err.Error()
	}
	info := &types.Info{
		Types:  make(map[ast.Expr]types.TypeAndValue),
		Defs:   make(map[*ast.Ident]types.Object),
		Uses:   make(map[*ast.Ident]types.Object),
		Scopes: make(map[ast.Node]*types.Scope),
	}
	conf := types.Config{Importer: importer.Default()}
	if _, err := conf.Check("p", fset, []*ast.File{f}, info); err != nil {
		return false, "check: " + err.Error()
	}
	var call *ast.CallExpr
	last := f.Decls[len(f.Decls)-1].(*ast.GenDecl)
	call = last.Specs[0].(*ast.ValueSpec).Values[0].(*ast.CallExpr)
	_, perr := processValue(fset, info, call)
	if perr != nil {
		return false, perr.Error()
	}
	return true, ""
}

// VerifCopyProbe populates one instance of every go/ast node type through
// reflection, passes it through copyAST and reports, per (node type, field),
// whether the field survived.  Panics are reported per node type.
func VerifCopyProbe() []string {
	var out []string
	for _, proto := range verifNodeProtos() {
		out = append(out, verifCopyOne(proto)...)
	}
	sort.Strings(out)
	return out
}

func verifCopyOne(n ast.Node) (rows []string) {
	name := reflect.TypeOf(n).Elem().Name()
	defer func() {
		if r := recover(); r != nil {
			rows = append(rows, fmt.Sprintf("%s|*|PANIC %v", name, r))
		}
	}()
	c := copyAST(n)
	if c == nil || reflect.TypeOf(c) != reflect.TypeOf(n) {
		return []string{fmt.Sprintf("%s|*|WRONGTYPE", name)}
	}
	ov, cv := reflect.ValueOf(n).Elem(), reflect.ValueOf(c).Elem()
	for i := 0; i < ov.NumField(); i++ {
		f := ov.Type().Field(i)
		same := verifDeepSame(ov.Field(i), cv.Field(i))
		st := "LOST"
		if same {
			st = "KEPT"
			if verifShares(ov.Field(i), cv.Field(i)) {
				// structurally equal, but (part of) the subtree is the original's own
				st = "SHARED"
			}
		}
		rows = append(rows, fmt.Sprintf("%s|%s|%s", name, f.Name, st))
	}
	return rows
}

// verifDeepSame compares two reflected AST values structurally, ignoring
// pointer identity (except that *ast.Object / *ast.Scope are compared by
// presence only).
func verifDeepSame(a, b reflect.Value) bool {
	if a.Kind() != b.Kind() {
		return false
	}
	switch a.Kind() {
	case reflect.Ptr, reflect.Interface:
		if a.IsNil() || b.IsNil() {
			return a.IsNil() == b.IsNil()
		}
		if a.Kind() == reflect.Ptr {
			switch a.Interface().(type) {
			case *ast.Object, *ast.Scope:
				return true
			}
		}
		if a.Elem().Type() != b.Elem().Type() {
			return false
		}
		return verifDeepSame(a.Elem(), b.Elem())
	case reflect.Struct:
		for i := 0; i < a.NumField(); i++ {
			if !verifDeepSame(a.Field(i), b.Field(i)) {
				return false
			}
		}
		return true
	case reflect.Slice:
		if a.Len() != b.Len() {
			return false
		}
		for i := 0; i < a.Len(); i++ {
			if !verifDeepSame(a.Index(i), b.Index(i)) {
				return false
			}
		}
		return true
	case reflect.Map:
		return a.Len() == b.Len()
	default:
		return a.Interface() == b.Interface()
	}
}

// verifShares reports whether the copy b reaches a node (other than an
// identifier, which copyAST keeps on purpose) or a slice of the original a.
func verifShares(a, b reflect.Value) bool {
	if a.Kind() != b.Kind() {
		return false
	}
	switch a.Kind() {
	case reflect.Interface:
		if a.IsNil() || b.IsNil() {
			return false
		}
		return verifShares(a.Elem(), b.Elem())
	case reflect.Ptr:
		if a.IsNil() || b.IsNil() || a.Elem().Type() != b.Elem().Type() {
			return false
		}
		switch a.Interface().(type) {
		case *ast.Ident, *ast.Object, *ast.Scope:
			return false
		}
		if a.Pointer() == b.Pointer() {
			return true
		}
		return verifShares(a.Elem(), b.Elem())
	case reflect.Struct:
		for i := 0; i < a.NumField(); i++ {
			if verifShares(a.Field(i), b.Field(i)) {
				return true
			}
		}
		return false
	case reflect.Slice:
		if a.Len() > 0 && b.Len() > 0 && a.Pointer() == b.Pointer() {
			return true
		}
		for i := 0; i < a.Len() && i < b.Len(); i++ {
			if verifShares(a.Index(i), b.Index(i)) {
				return true
			}
		}
		return false
	default:
		return false
	}
}

// verifNodeProtos returns one fully populated instance of each concrete
// go/ast node type that can occur inside a declaration.
func verifNodeProtos() []ast.Node {
	id := func(s string) *ast.Ident { return &ast.Ident{NamePos: 7, Name: s} }
	// expression children are not bare identifiers (which copyAST keeps on
	// purpose), so that a child shared with the original shows
	ex := func(s string) ast.Expr { return &ast.ParenExpr{Lparen: 6, X: id(s), Rparen: 8} }
	lit := &ast.BasicLit{ValuePos: 3, Kind: token.INT, Value: "42"}
	fl := func() *ast.FieldList {
		return &ast.FieldList{Opening: 5, Closing: 9, List: []*ast.Field{{Names: []*ast.Ident{id("a")}, Type: ex("int"), Tag: &ast.BasicLit{Kind: token.STRING, Value: "`t`"}}}}
	}
	blk := func() *ast.BlockStmt {
		return &ast.BlockStmt{Lbrace: 4, Rbrace: 8, List: []ast.Stmt{&ast.ExprStmt{X: ex("x")}}}
	}
	ft := func() *ast.FuncType { return &ast.FuncType{Func: 2, Params: fl(), Results: fl()} }
	protos := []ast.Node{
		&ast.ArrayType{Lbrack: 2, Len: lit, Elt: ex("int")},
		&ast.AssignStmt{Lhs: []ast.Expr{ex("a")}, TokPos: 3, Tok: token.DEFINE, Rhs: []ast.Expr{lit}},
		&ast.BadDecl{From: 2, To: 3},
		&ast.BadExpr{From: 2, To: 3},
		&ast.BadStmt{From: 2, To: 3},
		&ast.BasicLit{ValuePos: 3, Kind: token.STRING, Value: `"s"`},
		&ast.BinaryExpr{X: ex("a"), OpPos: 3, Op: token.ADD, Y: lit},
		&ast.BlockStmt{Lbrace: 4, Rbrace: 8, List: []ast.Stmt{&ast.ExprStmt{X: ex("x")}}},
		&ast.BranchStmt{TokPos: 3, Tok: token.GOTO, Label: id("L")},
		&ast.CallExpr{Fun: ex("f"), Lparen: 2, Args: []ast.Expr{ex("a")}, Ellipsis: 6, Rparen: 9},
		&ast.CaseClause{Case: 2, List: []ast.Expr{lit}, Colon: 4, Body: []ast.Stmt{&ast.ExprStmt{X: ex("x")}}},
		&ast.ChanType{Begin: 2, Arrow: 3, Dir: ast.RECV, Value: ex("int")},
		&ast.CommClause{Case: 2, Comm: &ast.ExprStmt{X: ex("x")}, Colon: 4, Body: []ast.Stmt{&ast.ExprStmt{X: ex("y")}}},
		&ast.Comment{Slash: 2, Text: "// c"},
		&ast.CommentGroup{List: []*ast.Comment{{Slash: 2, Text: "// c"}}},
		&ast.CompositeLit{Type: ex("T"), Lbrace: 3, Elts: []ast.Expr{lit}, Rbrace: 9, Incomplete: true},
		&ast.DeclStmt{Decl: &ast.GenDecl{Tok: token.VAR, Specs: []ast.Spec{&ast.ValueSpec{Names: []*ast.Ident{id("v")}, Type: ex("int")}}}},
		&ast.DeferStmt{Defer: 2, Call: &ast.CallExpr{Fun: ex("f")}},
		&ast.Ellipsis{Ellipsis: 2, Elt: ex("int")},
		&ast.EmptyStmt{Semicolon: 2, Implicit: true},
		&ast.ExprStmt{X: ex("x")},
		&ast.Field{Doc: &ast.CommentGroup{List: []*ast.Comment{{Text: "// d"}}}, Names: []*ast.Ident{id("a")}, Type: ex("int"), Tag: &ast.BasicLit{Kind: token.STRING, Value: "`t`"}, Comment: &ast.CommentGroup{List: []*ast.Comment{{Text: "// e"}}}},
		fl(),
		&ast.ForStmt{For: 2, Init: &ast.ExprStmt{X: ex("i")}, Cond: ex("c"), Post: &ast.ExprStmt{X: ex("p")}, Body: blk()},
		&ast.FuncDecl{Doc: &ast.CommentGroup{List: []*ast.Comment{{Text: "// d"}}}, Recv: fl(), Name: id("f"), Type: ft(), Body: blk()},
		&ast.FuncLit{Type: ft(), Body: blk()},
		&ast.FuncType{Func: 2, TypeParams: fl(), Params: fl(), Results: fl()},
		&ast.GenDecl{Doc: &ast.CommentGroup{List: []*ast.Comment{{Text: "// d"}}}, TokPos: 2, Tok: token.VAR, Lparen: 3, Specs: []ast.Spec{&ast.ValueSpec{Names: []*ast.Ident{id("v")}, Type: ex("int")}}, Rparen: 9},
		&ast.GoStmt{Go: 2, Call: &ast.CallExpr{Fun: ex("f")}},
		&ast.Ident{NamePos: 7, Name: "x"},
		&ast.IfStmt{If: 2, Init: &ast.ExprStmt{X: ex("i")}, Cond: ex("c"), Body: blk(), Else: blk()},
		&ast.ImportSpec{Doc: &ast.CommentGroup{List: []*ast.Comment{{Text: "// d"}}}, Name: id("n"), Path: &ast.BasicLit{Kind: token.STRING, Value: `"p"`}, Comment: &ast.CommentGroup{List: []*ast.Comment{{Text: "// e"}}}, EndPos: 9},
		&ast.IncDecStmt{X: ex("x"), TokPos: 3, Tok: token.INC},
		&ast.IndexExpr{X: ex("a"), Lbrack: 2, Index: lit, Rbrack: 5},
		&ast.IndexListExpr{X: ex("a"), Lbrack: 2, Indices: []ast.Expr{ex("int"), ex("string")}, Rbrack: 5},
		&ast.InterfaceType{Interface: 2, Methods: fl(), Incomplete: true},
		&ast.KeyValueExpr{Key: ex("k"), Colon: 3, Value: lit},
		&ast.LabeledStmt{Label: id("L"), Colon: 3, Stmt: &ast.ExprStmt{X: ex("x")}},
		&ast.MapType{Map: 2, Key: ex("string"), Value: ex("int")},
		&ast.ParenExpr{Lparen: 2, X: ex("x"), Rparen: 4},
		&ast.RangeStmt{For: 2, Key: ex("k"), Value: ex("v"), TokPos: 4, Tok: token.DEFINE, Range: 5, X: ex("m"), Body: blk()},
		&ast.ReturnStmt{Return: 2, Results: []ast.Expr{lit}},
		&ast.SelectStmt{Select: 2, Body: &ast.BlockStmt{List: []ast.Stmt{&ast.CommClause{Body: []ast.Stmt{&ast.ExprStmt{X: ex("y")}}}}}},
		&ast.SelectorExpr{X: ex("x"), Sel: id("f")},
		&ast.SendStmt{Chan: ex("c"), Arrow: 3, Value: lit},
		&ast.SliceExpr{X: ex("a"), Lbrack: 2, Low: lit, High: lit, Max: lit, Slice3: true, Rbrack: 8},
		&ast.StarExpr{Star: 2, X: ex("x")},
		&ast.StructType{Struct: 2, Fields: fl(), Incomplete: true},
		&ast.SwitchStmt{Switch: 2, Init: &ast.ExprStmt{X: ex("i")}, Tag: ex("t"), Body: &ast.BlockStmt{List: []ast.Stmt{&ast.CaseClause{List: []ast.Expr{lit}}}}},
		&ast.TypeAssertExpr{X: ex("x"), Lparen: 3, Type: ex("T"), Rparen: 5},
		&ast.TypeSpec{Doc: &ast.CommentGroup{List: []*ast.Comment{{Text: "// d"}}}, Name: id("T"), TypeParams: fl(), Assign: 4, Type: ex("int"), Comment: &ast.CommentGroup{List: []*ast.Comment{{Text: "// e"}}}},
		&ast.TypeSwitchStmt{Switch: 2, Init: &ast.ExprStmt{X: ex("i")}, Assign: &ast.ExprStmt{X: &ast.TypeAssertExpr{X: ex("x")}}, Body: &ast.BlockStmt{List: []ast.Stmt{&ast.CaseClause{List: []ast.Expr{ex("int")}}}}},
		&ast.UnaryExpr{OpPos: 2, Op: token.AND, X: ex("x")},
		&ast.ValueSpec{Doc: &ast.CommentGroup{List: []*ast.Comment{{Text: "// d"}}}, Names: []*ast.Ident{id("v")}, Type: ex("int"), Values: []ast.Expr{lit}, Comment: &ast.CommentGroup{List: []*ast.Comment{{Text: "// e"}}}},
	}
	return protos
}

// VerifASTNodeTypes lists, by reflection over the prototypes, the node type
// names the probe covers.
func VerifASTNodeTypes() []string {
	var out []string
	for _, p := range verifNodeProtos() {
		out = append(out, reflect.TypeOf(p).Elem().Name())
	}
	sort.Strings(out)
	return out
}

// VerifRenameOcc is one identifier occurrence of a declaration passed through
// rewritePkgRefs: its name before and after, the go/types object it denotes
// (numbered in order of first occurrence, -1 for none) and whether that object
// is one the second pass may rename (declared inside the node, not at package
// scope, not a field or method).
type VerifRenameOcc struct {
	Before string `json:"before"`
	After  string `json:"after"`
	Obj    int    `json:"obj"`
	Local  bool   `json:"local"`
}

// VerifRenameProbe type-checks the single-file package src, passes the function
// declaration named fn through the real rewritePkgRefs of a generator whose file
// scope additionally holds the given import names, and reports the identifier
// occurrences in traversal order, the names of the file scope and the printed
// result.
func VerifRenameProbe(src, fn string, imports []string) (occs []VerifRenameOcc, scope []string, printed string, msg string) {
	defer func() {
		if r := recover(); r != nil {
			occs, msg = nil, "PANIC: "+fmt.Sprint(r)
		}
	}()
	fset := token.NewFileSet()
	f, err := parser.ParseFile(fset, "p.go", src, 0)
	if err != nil {
		return nil, nil, "", "parse: " + err.Error()
	}
	info := &types.Info{
		Types:  make(map[ast.Expr]types.TypeAndValue),
		Defs:   make(map[*ast.Ident]types.Object),
		Uses:   make(map[*ast.Ident]types.Object),
		Scopes: make(map[ast.Node]*types.Scope),
	}
	conf := types.Config{Importer: importer.Default()}
	tpkg, err := conf.Check("p", fset, []*ast.File{f}, info)
	if err != nil {
		return nil, nil, "", "check: " + err.Error()
	}
	var node ast.Node
	for _, d := range f.Decls {
		if fd, ok := d.(*ast.FuncDecl); ok && fd.Name.Name == fn {
			node = fd
		}
	}
	if node == nil {
		return nil, nil, "", "no function " + fn
	}
	g := newGen(&packages.Package{PkgPath: "p", Name: "p", Fset: fset, Types: tpkg, TypesInfo: info, Syntax: []*ast.File{f}})
	for _, n := range imports {
		g.imports["verif/"+n] = importInfo{name: n}
	}
	pkgScope := tpkg.Scope()
	start, end := node.Pos(), node.End()
	ids := make(map[types.Object]int)
	astutil.Apply(node, func(c *astutil.Cursor) bool {
		id, ok := c.Node().(*ast.Ident)
		if !ok {
			return true
		}
		o := VerifRenameOcc{Before: id.Name, Obj: -1}
		if obj := info.ObjectOf(id); obj != nil {
			n, seen := ids[obj]
			if !seen {
				n = len(ids)
				ids[obj] = n
			}
			o.Obj = n
			par := obj.Parent()
			o.Local = par != nil && par != pkgScope && start <= obj.Pos() && obj.Pos() < end
		}
		occs = append(occs, o)
		return true
	}, nil)
	out := g.rewritePkgRefs(info, node)
	i := 0
	astutil.Apply(out, func(c *astutil.Cursor) bool {
		if id, ok := c.Node().(*ast.Ident); ok {
			if i < len(occs) {
				occs[i].After = id.Name
			}
			i++
		}
		return true
	}, nil)
	if i != len(occs) {
		return nil, nil, "", fmt.Sprintf("misaligned: %d identifiers before, %d after", len(occs), i)
	}
	scope = append(scope, imports...)
	scope = append(scope, pkgScope.Names()...)
	scope = append(scope, types.Universe.Names()...)
	var buf bytes.Buffer
	if err := printer.Fprint(&buf, fset, out); err != nil {
		return nil, nil, "", "print: " + err.Error()
	}
	return occs, scope, buf.String(), ""
}
